import NauyacaVerif.Srv.Sys
import NauyacaVerif.Srv.ConnMore
import NauyacaVerif.Srv.FlowProof

/-! Proofs about the composed server connection machine M-Sys. -/
namespace Srv
/-! ### frame facts: only the `lost` event changes `lost` -/
theorem respond_lostf (s : St) (r : Resp) : (respond s r).lost = s.lost := by unfold respond; exact respondWith_lost_eq _ _
theorem respondFixed_lostf (s : St) (st : Int) (m : String) : (respondFixed s st m).lost = s.lost := respond_lostf _ _
theorem respondDyn_lostf (s : St) (n : Nat) : (respondDyn s n).lost = s.lost := respondWith_lost_eq _ _

theorem route_lostf (cfg : Cfg) (s : St) : (route cfg s).lost = s.lost := by
  unfold route; simp only; split
  · exact respond_lostf _ _
  · exact respondDyn_lostf _ _
  · rfl

theorem dispatchG_lostf (cfg : Cfg) (s : St) : (dispatchG cfg s).lost = s.lost := by
  unfold dispatchG; split
  · rfl
  · exact route_lostf _ _

theorem dispatchT_lostf (cfg : Cfg) (s : St) : (dispatchT cfg s).lost = s.lost := by
  unfold dispatchT; simp only; split <;> rfl

theorem onLine_lostf (cfg : Cfg) (s : St) (l r : Bytes) : (onLine cfg s l r).lost = s.lost := by
  unfold onLine; simp only
  split
  · exact respondFixed_lostf _ _ _
  · split
    · split
      · exact respondFixed_lostf _ _ _
      · split
        · exact respondDyn_lostf _ _
        · split
          · exact dispatchT_lostf _ _
          · rfl
    · split
      · exact dispatchG_lostf _ _
      · exact respondDyn_lostf _ _

theorem lineStep_lostf (cfg : Cfg) (s : St) (b : Bytes) : (lineStep cfg s b).lost = s.lost := by
  unfold lineStep; split
  · split
    · exact respondFixed_lostf _ _ _
    · rfl
  · split
    · exact respondFixed_lostf _ _ _
    · exact onLine_lostf _ _ _ _

theorem titanStep_lostf (cfg : Cfg) (s : St) (b : Bytes) : (titanStep cfg s b).lost = s.lost := by
  unfold titanStep; split
  · exact dispatchT_lostf _ _
  · rfl

theorem step_lostf (cfg : Cfg) (s : St) (e : Ev) (he : e ≠ .lost) : (step cfg s e).lost = s.lost := by
  cases e with
  | lost => exact absurd rfl he
  | tick dt => simp only [step]; split; exact respondFixed_lostf _ _ _; rfl
  | data c =>
    simp only [step]; split
    · rfl
    · split
      · split
        · rfl
        · exact lineStep_lostf _ _ _
      · exact titanStep_lostf _ _ _
      · rfl
  | timeout => simp only [step]; split; exact respondFixed_lostf _ _ _; rfl
  | mwAllow => simp only [step]; split; exact route_lostf _ _; rfl; rfl
  | mwDeny l => simp only [step]; split <;> first | exact respond_lostf _ _ | rfl
  | mwRaise => simp only [step]; split <;> first | exact respondFixed_lostf _ _ _ | rfl
  | hDone r => simp only [step]; split <;> first | exact respond_lostf _ _ | rfl
  | hRaise => simp only [step]; split <;> first | exact respondDyn_lostf _ _ | rfl
  | uDone r => simp only [step]; split <;> first | exact respond_lostf _ _ | rfl
  | uRaise => simp only [step]; split <;> first | exact respondDyn_lostf _ _ | rfl

theorem step_lost_ev (cfg : Cfg) (s : St) : (step cfg s .lost).lost = true ∧ (step cfg s .lost).sent = s.sent ∧ (step cfg s .lost).out = s.out := by
  simp [step]
end Srv

namespace Srv
/-- once a response has been decided, no event changes the decision -/
theorem sent_stable (cfg : Cfg) (s : St) (e : Ev) (hi : Inv cfg s) (hs : s.sent = true) :
    (step cfg s e).out = s.out ∧ (step cfg s e).sent = true := by
  have hd := hi.sentDone hs
  have hout : (step cfg s e).out = s.out := by
    cases e <;> simp [step, hd, hs, respondFixed, respond, respondWith]
    all_goals (try split) <;> simp_all
  refine ⟨hout, ?_⟩
  rcases (step_inv cfg s e hi).shape with ⟨_, h0⟩ | ⟨h1, _⟩
  · rcases hi.shape with ⟨h2, _⟩ | ⟨_, ws, hw, _⟩
    · simp [hs] at h2
    · rw [hout, hw] at h0; simp at h0
  · exact h1

/-- nothing is decided for a peer that is gone -/
theorem lost_nosend (cfg : Cfg) (s : St) (e : Ev) (hi : Inv cfg s) (hl : s.lost = true) (hs : s.sent = false) :
    (step cfg s e).sent = false := by
  have hout := (lost_silent cfg s e hl).1
  rcases hi.shape with ⟨_, h0⟩ | ⟨h1, _⟩
  · rcases (step_inv cfg s e hi).shape with ⟨h2, _⟩ | ⟨_, ws, hw, _⟩
    · exact h2
    · rw [hout, h0] at hw; simp at hw
  · simp [hs] at h1
end Srv

namespace Srv.Sys
open Srv Srv.Flow

theorem flatten_flatMap_chunk (l : List Bytes) : (l.flatMap (chunk writeChunk)).flatten = l.flatten := by
  induction l with
  | nil => rfl
  | cons b bs ih => simp [List.flatMap_cons, chunk_flatten, ih]

/-- cutting into pieces loses and adds nothing -/
theorem piecesOf_flatten (dyn : Nat → Bytes) (outs : List Out) : (piecesOf dyn outs).flatten = bytesOf dyn outs := by
  unfold piecesOf bytesOf
  cases h : outs.flatMap (outBytes dyn) with
  | nil => rfl
  | cons a rest => simp [flatten_flatMap_chunk]

/-- the link between the two halves -/
structure J (cfg : Cfg) (dyn : Nat → Bytes) (s : SSt) : Prop where
  ci : Inv cfg s.conn
  fi : FInv s.flow
  started : s.flow.started = s.conn.sent
  allEq : s.conn.sent = true → s.flow.all = piecesOf dyn s.conn.out
  lostEq : s.flow.lost = s.conn.lost

theorem j_init (cfg : Cfg) (dyn : Nat → Bytes) : J cfg dyn {} :=
  ⟨inv_init cfg, finv_init, rfl, (by intro h; simp at h), rfl⟩

theorem sstep_j (cfg : Cfg) (dyn : Nat → Bytes) (s : SSt) (e : SEv) (h : J cfg dyn s) : J cfg dyn (sstep cfg dyn s e) := by
  cases e with
  | limit k => exact ⟨h.ci, fstep_inv s.flow (.limit k) h.fi, h.started, h.allEq, h.lostEq⟩
  | pause => exact ⟨h.ci, fstep_inv s.flow .pause h.fi, h.started, h.allEq, h.lostEq⟩
  | resume =>
    have hp := pump_frame { s.flow with paused := false }
    refine ⟨h.ci, fstep_inv s.flow .resume h.fi, ?_, ?_, ?_⟩
    · show (pump { s.flow with paused := false }).started = s.conn.sent
      rw [hp.2.2]; exact h.started
    · intro hs
      show (pump { s.flow with paused := false }).all = _
      rw [hp.1]; exact h.allEq hs
    · show (pump { s.flow with paused := false }).lost = s.conn.lost
      rw [hp.2.1]; exact h.lostEq
  | conn ev =>
    have hci := step_inv cfg s.conn ev h.ci
    simp only [sstep]
    by_cases hflip : ((step cfg s.conn ev).sent && !s.conn.sent) = true
    · -- the response is decided by this event
      simp only [Bool.and_eq_true, Bool.not_eq_true'] at hflip
      obtain ⟨hs', hs⟩ := hflip
      have hl : s.conn.lost = false := by
        cases hl : s.conn.lost with
        | false => rfl
        | true => have := lost_nosend cfg s.conn ev h.ci hl hs; rw [this] at hs'; cases hs'
      have hne : ev ≠ .lost := by
        intro he; subst he
        have := (step_lost_ev cfg s.conn).2.1; rw [this, hs] at hs'; cases hs'
      have hl' : (step cfg s.conn ev).lost = false := by rw [step_lostf cfg s.conn ev hne]; exact hl
      have hfs : s.flow.started = false := by rw [h.started]; exact hs
      have hfl : s.flow.lost = false := by rw [h.lostEq]; exact hl
      simp only [hs', hs, hl', hl, Bool.not_false, Bool.and_self, Bool.false_and, ↓reduceIte, Bool.false_eq_true]
      have hp := pump_frame { s.flow with started := true, unsent := piecesOf dyn (step cfg s.conn ev).out, all := piecesOf dyn (step cfg s.conn ev).out, timer := none }
      have hsend : fstep s.flow (.send (piecesOf dyn (step cfg s.conn ev).out)) =
          pump { s.flow with started := true, unsent := piecesOf dyn (step cfg s.conn ev).out, all := piecesOf dyn (step cfg s.conn ev).out, timer := none } := by
        simp [fstep, hfs, hfl]
      refine ⟨hci, fstep_inv s.flow (.send (piecesOf dyn (step cfg s.conn ev).out)) h.fi, ?_, ?_, ?_⟩
      · show (fstep s.flow (.send (piecesOf dyn (step cfg s.conn ev).out))).started = _
        rw [hsend, hp.2.2]; exact hs'.symm
      · intro _; show (fstep s.flow (.send (piecesOf dyn (step cfg s.conn ev).out))).all = _
        rw [hsend, hp.1]
      · show (fstep s.flow (.send (piecesOf dyn (step cfg s.conn ev).out))).lost = _
        rw [hsend, hp.2.1, hl']; exact hfl
    · have hnf : ((step cfg s.conn ev).sent && !s.conn.sent) = false := by simpa using hflip
      simp only [hnf, Bool.false_eq_true, ↓reduceIte]
      -- the decision did not change in this step
      have hsame : (step cfg s.conn ev).sent = s.conn.sent ∧ (s.conn.sent = true → (step cfg s.conn ev).out = s.conn.out) := by
        cases hs : s.conn.sent with
        | true => have := sent_stable cfg s.conn ev h.ci hs; exact ⟨this.2, fun _ => this.1⟩
        | false =>
          refine ⟨?_, fun hh => by cases hh⟩
          cases hs' : (step cfg s.conn ev).sent with
          | false => rfl
          | true => simp [hs, hs'] at hnf
      by_cases hlf : ((step cfg s.conn ev).lost && !s.conn.lost) = true
      · simp only [hlf, ↓reduceIte]
        simp only [Bool.and_eq_true, Bool.not_eq_true'] at hlf
        refine ⟨hci, fstep_inv s.flow .lost h.fi, ?_, ?_, ?_⟩
        · show s.flow.started = _; rw [hsame.1]; exact h.started
        · intro hs; show s.flow.all = _
          have hs0 : s.conn.sent = true := by rw [← hsame.1]; exact hs
          rw [hsame.2 hs0]; exact h.allEq hs0
        · show true = _; exact hlf.1.symm
      · have hlf' : ((step cfg s.conn ev).lost && !s.conn.lost) = false := by simpa using hlf
        simp only [hlf', Bool.false_eq_true, ↓reduceIte]
        have hlost : (step cfg s.conn ev).lost = s.conn.lost := by
          cases hl : s.conn.lost with
          | true => exact (lost_silent cfg s.conn ev hl).2
          | false =>
            cases hl' : (step cfg s.conn ev).lost with
            | false => rfl
            | true => simp [hl, hl'] at hlf'
        refine ⟨hci, h.fi, ?_, ?_, ?_⟩
        · rw [hsame.1]; exact h.started
        · intro hs
          have hs0 : s.conn.sent = true := by rw [← hsame.1]; exact hs
          rw [hsame.2 hs0]; exact h.allEq hs0
        · rw [hlost]; exact h.lostEq

theorem srun_j (cfg : Cfg) (dyn : Nat → Bytes) (evs : List SEv) : J cfg dyn (srun cfg dyn evs) := by
  unfold srun
  have : ∀ s, J cfg dyn s → J cfg dyn (evs.foldl (sstep cfg dyn) s) := by
    induction evs with
    | nil => intro s h; simpa using h
    | cons e es ih => intro s h; exact ih _ (sstep_j cfg dyn s e h)
  exact this _ (j_init cfg dyn)

/-- before a response is decided nothing at all reaches the transport -/
theorem silent_before_decision (cfg : Cfg) (dyn : Nat → Bytes) (evs : List SEv) (h : (srun cfg dyn evs).conn.sent = false) :
    (srun cfg dyn evs).flow.out = [] := by
  have j := srun_j cfg dyn evs
  have hs : (srun cfg dyn evs).flow.started = false := by rw [j.started]; exact h
  obtain ⟨_, hd, _, hc⟩ := j.fi.idle hs
  rw [j.fi.trace, hd, hc]; rfl

/-- whatever the peer, the middleware, the handlers, the clock and the transport do, in any order: the bytes that have
    reached the transport are a prefix of the ONE response the request side decided on … -/
theorem written_prefix (cfg : Cfg) (dyn : Nat → Bytes) (evs : List SEv) :
    written (srun cfg dyn evs) <+: bytesOf dyn (srun cfg dyn evs).conn.out := by
  have j := srun_j cfg dyn evs
  cases hs : (srun cfg dyn evs).conn.sent with
  | false =>
    have hst : (srun cfg dyn evs).flow.started = false := by rw [j.started]; exact hs
    obtain ⟨_, hd, _, _⟩ := j.fi.idle hst
    unfold written; rw [hd]; exact List.nil_prefix
  | true =>
    unfold written
    rw [← piecesOf_flatten, ← j.allEq hs, ← j.fi.total, List.flatten_append]
    exact List.prefix_append _ _

/-- … the trace is those writes, in order, followed by `close` exactly when the connection was closed … -/
theorem trace_shape (cfg : Cfg) (dyn : Nat → Bytes) (evs : List SEv) :
    (srun cfg dyn evs).flow.out = (srun cfg dyn evs).flow.done.map .write ++ (if (srun cfg dyn evs).flow.closed then [.close] else []) :=
  (srun_j cfg dyn evs).fi.trace

/-- … and the connection is closed only when ALL of it has been written: never a half-written response followed by a
    close, under any flow control -/
theorem closed_complete (cfg : Cfg) (dyn : Nat → Bytes) (evs : List SEv) (hc : (srun cfg dyn evs).flow.closed = true) :
    written (srun cfg dyn evs) = bytesOf dyn (srun cfg dyn evs).conn.out := by
  have j := srun_j cfg dyn evs
  have hst : (srun cfg dyn evs).flow.started = true := by
    cases hst : (srun cfg dyn evs).flow.started with
    | true => rfl
    | false => have := (j.fi.idle hst).2.2.2; rw [hc] at this; cases this
  have hs : (srun cfg dyn evs).conn.sent = true := by rw [← j.started]; exact hst
  have hu := j.fi.closedEmpty hc
  unfold written
  rw [← piecesOf_flatten, ← j.allEq hs, ← j.fi.total, hu, List.append_nil]

/-- the response that is written is well-formed: the request side's tokens are one header (and a body only for 2x) -/
theorem decided_wellformed (cfg : Cfg) (dyn : Nat → Bytes) (evs : List SEv) (hs : (srun cfg dyn evs).conn.sent = true) :
    ∃ ws, (srun cfg dyn evs).conn.out = ws ++ [.close] ∧ WFWrites ws := by
  rcases (srun_j cfg dyn evs).ci.shape with ⟨h, _⟩ | ⟨_, h⟩
  · rw [hs] at h; cases h
  · exact h

/-- once the peer is gone no event makes the transport see another byte -/
theorem lost_quiet (cfg : Cfg) (dyn : Nat → Bytes) (s : SSt) (e : SEv) (j : J cfg dyn s) (hl : s.conn.lost = true) :
    (sstep cfg dyn s e).flow.out = s.flow.out := by
  have hfl : s.flow.lost = true := by rw [j.lostEq]; exact hl
  cases e with
  | limit k => rfl
  | pause => rfl
  | resume => exact resume_quiet_when_dead s.flow (Or.inr hfl)
  | conn ev =>
    simp only [sstep]
    have hl' := (lost_silent cfg s.conn ev hl).2
    have h2 : ((step cfg s.conn ev).lost && !s.conn.lost) = false := by simp [hl]
    simp only [h2, Bool.false_eq_true, ↓reduceIte]
    split
    · exact quiet_when_paused s.flow _ (Or.inr (Or.inr hfl)) (by intro h; cases h)
    · rfl

/-- progress: when the transport resumes and does not pause again, a response that was begun is completed and the
    connection closed -/
theorem resume_completes (cfg : Cfg) (dyn : Nat → Bytes) (s : SSt) (j : J cfg dyn s) (hs : s.conn.sent = true) (hl : s.conn.lost = false)
    (hc : s.flow.closed = false) (hb : s.flow.budget = none) :
    (sstep cfg dyn s .resume).flow.closed = true ∧ written (sstep cfg dyn s .resume) = bytesOf dyn s.conn.out := by
  have hst : s.flow.started = true := by rw [j.started]; exact hs
  have hfl : s.flow.lost = false := by rw [j.lostEq]; exact hl
  have h := resume_finishes s.flow hst hfl hc hb
  have j' := sstep_j cfg dyn s .resume j
  refine ⟨h.1, ?_⟩
  have hu := h.2
  unfold written
  have ht := j'.fi.total
  have ha := j'.allEq hs
  show ((fstep s.flow .resume).done).flatten = _
  have ht' : (fstep s.flow .resume).done ++ (fstep s.flow .resume).unsent = (fstep s.flow .resume).all := ht
  rw [hu, List.append_nil] at ht'
  rw [ht', ← piecesOf_flatten]
  exact congrArg List.flatten ha

/-- non-vacuity: a request split over two reads, the transport pausing during the header write and resuming later -/
example : (srun { mw := false, upload := false, handler := .sync ⟨20, strOf "text/gemini", .bytes [104, 105]⟩, env := asciiEnv } (fun _ => [])
    [.limit 0, .conn (.data (strOf "gemini://h/")), .conn (.data [13, 10]), .resume]).flow.out
    = [.write (strOf "20 text/gemini\r\n"), .write [104, 105], .close] := by decide
end Srv.Sys
