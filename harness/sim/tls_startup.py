"""Start-up paths of the server and command-line paths of the client, run for real on loopback (C20).

Server side
    `Started(entry, cert, rcc, auth, docroot)` starts the REAL server the way an operator does, either
    through `start_server(ServerConfig(...), certificate_auth_config=...)` (entry "api") or through
    `nauyaca serve --config <toml>` (entry "cli", typer's CliRunner), in a background thread.  The only
    thing replaced is the address: `BaseEventLoop.create_server` swaps host/port for a socket bound to
    127.0.0.1:<ephemeral>; protocol factory, ssl= argument and every other keyword are passed through
    untouched, so the listener that is probed is exactly the listener `start_server` builds.  A server
    that refuses to start (e.g. a certificate OpenSSL does not load) is an observation, not an error.

    `server_cert(kind)` makes the certificate an operator might supply: ordinary ones and ones below
    OpenSSL's default security level (RSA-1024 key, SHA-1 signature).

Client side
    `cli_commands()` enumerates the commands of the command-line interface from the source (the click
    tree typer builds from `nauyaca.__main__.app`) and `synth_argv()` builds an argument vector that
    points a command at a given host/port from nothing but its declared parameters, so that a command
    that is new to the harness is exercised too.  `CertPeer` is tls_live.VersionPeer with a choice of
    certificate per step.
"""
from __future__ import annotations

import asyncio
import contextlib
import datetime
import io
import os
import shutil
import socket
import subprocess
import sys
import tempfile
import threading
from pathlib import Path

from . import tls_live, tls_peer

# ------------------------------------------------------------------------------------------------
# certificates an operator might supply
# ------------------------------------------------------------------------------------------------
CERT_KINDS = ["auto", "rsa2048", "ec256", "rsa1024", "rsa1024-sha1", "rsa2048-sha1"]
WEAK_KINDS = ("rsa1024", "rsa1024-sha1", "rsa2048-sha1")
_CERTS: dict[str, tuple[bytes, bytes] | None] = {}


def server_cert(kind: str) -> tuple[bytes, bytes] | None:
    """(cert PEM, key PEM) of the given kind, cached per process; None when this machine's
    `cryptography` cannot produce it (SHA-1 signatures may be disabled)."""
    if kind in _CERTS:
        return _CERTS[kind]
    from cryptography import x509
    from cryptography.hazmat.primitives import hashes, serialization
    from cryptography.hazmat.primitives.asymmetric import ec, rsa
    from cryptography.x509.oid import NameOID

    try:
        if kind == "rsa2048":
            from nauyaca.security.certificates import generate_self_signed_cert

            pems = generate_self_signed_cert("localhost")
        elif kind.endswith("-sha1"):
            # `cryptography` refuses to sign with SHA-1; pyOpenSSL's (legacy) X509 API still does
            from OpenSSL import crypto

            k = crypto.PKey()
            k.generate_key(crypto.TYPE_RSA, 1024 if kind.startswith("rsa1024") else 2048)
            c = crypto.X509()
            c.set_version(2)
            c.get_subject().CN = "localhost"
            c.set_issuer(c.get_subject())
            c.set_pubkey(k)
            c.set_serial_number(int.from_bytes(os.urandom(8), "big") | 1)
            c.gmtime_adj_notBefore(-86400)
            c.gmtime_adj_notAfter(86400 * 30)
            c.sign(k, "sha1")
            pems = (crypto.dump_certificate(crypto.FILETYPE_PEM, c), crypto.dump_privatekey(crypto.FILETYPE_PEM, k))
        else:
            if kind == "ec256":
                key = ec.generate_private_key(ec.SECP256R1())
            else:
                key = rsa.generate_private_key(65537, 1024 if kind.startswith("rsa1024") else 2048)
            digest = hashes.SHA1() if kind.endswith("-sha1") else hashes.SHA256()
            name = x509.Name([x509.NameAttribute(NameOID.COMMON_NAME, "localhost")])
            now = datetime.datetime.now(datetime.timezone.utc)
            cert = (x509.CertificateBuilder().subject_name(name).issuer_name(name).public_key(key.public_key())
                    .serial_number(x509.random_serial_number()).not_valid_before(now - datetime.timedelta(days=1))
                    .not_valid_after(now + datetime.timedelta(days=30))
                    .add_extension(x509.SubjectAlternativeName([x509.DNSName("localhost")]), critical=False)
                    .sign(key, digest))
            pems = (cert.public_bytes(serialization.Encoding.PEM),
                    key.private_bytes(serialization.Encoding.PEM, serialization.PrivateFormat.TraditionalOpenSSL, serialization.NoEncryption()))
    except Exception:  # noqa: BLE001  (e.g. UnsupportedAlgorithm for SHA-1)
        pems = None
    _CERTS[kind] = pems
    return pems


# how an operator's certificate / key FILES may be encoded: PEM (what the documentation says), DER (what many CAs and key
# stores export: .der / .cer / .crt), or one of each
CERT_ENCODINGS = ("pem", "der", "der-cert", "der-key")


def encoded(pems: tuple[bytes, bytes], encoding: str) -> tuple[bytes, bytes]:
    """the same certificate and key in another file encoding"""
    from cryptography import x509
    from cryptography.hazmat.primitives import serialization

    c, k = pems
    if encoding in ("der", "der-cert"):
        c = x509.load_pem_x509_certificate(c).public_bytes(serialization.Encoding.DER)
    if encoding in ("der", "der-key"):
        k = serialization.load_pem_private_key(k, None).private_bytes(serialization.Encoding.DER, serialization.PrivateFormat.TraditionalOpenSSL,
                                                                       serialization.NoEncryption())
    return c, k


def write_cert_files(d: str, pems: tuple[bytes, bytes], encoding: str = "pem") -> tuple[str, str]:
    """write certificate and key into directory `d` in the given encoding, named as an operator would name them"""
    c, k = encoded(pems, encoding)
    cf = os.path.join(d, "c.der" if encoding in ("der", "der-cert") else "c.pem")
    kf = os.path.join(d, "k.der" if encoding in ("der", "der-key") else "k.pem")
    Path(cf).write_bytes(c)
    Path(kf).write_bytes(k)
    return cf, kf


def named_cert(org: str) -> tuple[bytes, bytes]:
    """Self-signed EC certificate for `localhost` whose subject also carries O=<org>: two of them can sit in
    one trust file without the verifier confusing one for the issuer of the other (same-name lookups)."""
    from cryptography import x509
    from cryptography.hazmat.primitives import hashes, serialization
    from cryptography.hazmat.primitives.asymmetric import ec
    from cryptography.x509.oid import NameOID

    key = ec.generate_private_key(ec.SECP256R1())
    name = x509.Name([x509.NameAttribute(NameOID.ORGANIZATION_NAME, org), x509.NameAttribute(NameOID.COMMON_NAME, "localhost")])
    now = datetime.datetime.now(datetime.timezone.utc)
    cert = (x509.CertificateBuilder().subject_name(name).issuer_name(name).public_key(key.public_key())
            .serial_number(x509.random_serial_number()).not_valid_before(now - datetime.timedelta(days=1))
            .not_valid_after(now + datetime.timedelta(days=30))
            .add_extension(x509.SubjectAlternativeName([x509.DNSName("localhost")]), critical=False)
            .add_extension(x509.BasicConstraints(ca=True, path_length=None), critical=True)
            .sign(key, hashes.SHA256()))
    return (cert.public_bytes(serialization.Encoding.PEM),
            key.private_bytes(serialization.Encoding.PEM, serialization.PrivateFormat.TraditionalOpenSSL, serialization.NoEncryption()))


def control_negotiates(kind: str, lo: int, hi: int) -> str:
    """What a permissive server context (level 0, every version) with this certificate negotiates with a
    permissive client offering lo..hi: shows that the old version IS negotiable with this certificate."""
    pems = server_cert(kind if kind != "auto" else "rsa2048")
    if pems is None:
        return "uncreatable"
    try:
        with tls_peer.cert_files(pems) as (_d, cf, kf):
            import ssl

            sx = ssl.SSLContext(ssl.PROTOCOL_TLS_SERVER)
            sx.set_ciphers(tls_peer.PERMISSIVE)
            sx.minimum_version = ssl.TLSVersion.MINIMUM_SUPPORTED
            sx.load_cert_chain(cf, kf)
        r = tls_peer.handshake(tls_peer.StdEnd(tls_peer.peer_client_ctx(lo, hi, True), False), tls_peer.StdEnd(sx, True))
        return "none" if r["v"] is None else tls_peer.VERS[r["v"]]
    except Exception as e:  # noqa: BLE001
        return "error:" + type(e).__name__


# ------------------------------------------------------------------------------------------------
# the real server, started the way an operator starts it
# ------------------------------------------------------------------------------------------------
def _toml(v) -> str:
    import json

    if isinstance(v, bool):
        return "true" if v else "false"
    if isinstance(v, (int, float)):
        return repr(v)
    if isinstance(v, str):
        return json.dumps(v)
    if isinstance(v, list):
        return "[" + ", ".join(_toml(x) for x in v) + "]"
    raise TypeError(v)


def _errclass(e: BaseException | None, text: str = "") -> str:
    s = (f"{type(e).__name__}: {e}" if e is not None else "") + " " + text
    u = s.upper().replace(" ", "_")
    for k in ("KEY_TOO_SMALL", "MD_TOO_WEAK", "KEY_VALUES_MISMATCH", "NO_SUCH_FILE"):
        if k in u:
            return k.lower()
    return (type(e).__name__ if e is not None else "exit")


class Started:
    """Context manager: the real server on 127.0.0.1:<self.port>, or `self.started == False` and
    `self.error` (a small enum) when it refused to start.

    entry  "api": start_server(ServerConfig(...), certificate_auth_config=CertificateAuthConfig(rules) | None)
           "cli": nauyaca serve --config <toml>  ([server] certfile/keyfile/require_client_cert, [[certificate_auth.paths]])
           "toml": start_server(cfg, ...) with cfg = ServerConfig.from_toml(<toml>) and the arguments `serve` derives from cfg
    extra  further settings of the configuration file: [table, key, value written as TOML text] (entries "cli" and "toml")
    cert   "auto" (no certificate configured) or a kind of `server_cert`
    auth   None or a list of rules {"prefix": str, "require_cert": bool, "fps": None | [str, ...]}
    """

    def __init__(self, entry: str, cert: str, rcc: bool, auth: list | None, docroot: str, extra: list | None = None, encoding: str = "pem"):
        assert entry in ("api", "cli", "toml")
        assert not (extra and entry == "api")   # extra settings are lines of a configuration FILE
        assert encoding in CERT_ENCODINGS
        self.entry, self.cert, self.rcc, self.auth, self.docroot = entry, cert, rcc, auth, docroot
        self.encoding = encoding   # how the SUPPLIED certificate and key files are encoded (see `encoded`)
        self.extra = [tuple(e) for e in (extra or [])]   # (table, key, value as TOML text)
        self.factory = None
        self.started = False
        self.error: str | None = None
        self.port: int | None = None
        self.ssl_arg = "unset"
        self.kw: dict = {}
        self.loop = None
        self.ready = threading.Event()
        self.thread: threading.Thread | None = None
        self._tmp: list[str] = []
        self._exc: BaseException | None = None
        self._cli_out = ""

    # -- what is run in the server thread ---------------------------------------------------------
    def _rules(self):
        from nauyaca.server.middleware import CertificateAuthConfig, CertificateAuthPathRule

        if self.auth is None:
            return None
        return CertificateAuthConfig(path_rules=[
            CertificateAuthPathRule(prefix=r["prefix"], require_cert=r["require_cert"],
                                    allowed_fingerprints=(set(r["fps"]) if r.get("fps") is not None else None))
            for r in self.auth])

    def _run_api(self, cf, kf):
        from nauyaca.server.config import ServerConfig
        from nauyaca.server.server import start_server

        loop = asyncio.new_event_loop()
        loop.set_exception_handler(lambda _l, _c: None)   # e.g. a peer that writes after close_notify: not the harness's business
        asyncio.set_event_loop(loop)
        try:
            kw = {"certfile": cf, "keyfile": kf} if cf else {}
            cfg = ServerConfig(host="127.0.0.1", port=1965, document_root=Path(self.docroot), require_client_cert=self.rcc, **kw)
            task = loop.create_task(start_server(cfg, enable_rate_limiting=False, log_level="CRITICAL", log_file=Path(os.devnull),
                                                 certificate_auth_config=self._rules()))
            loop.run_until_complete(task)
        except asyncio.CancelledError:
            pass
        except BaseException as e:  # noqa: BLE001
            self._exc = e
        finally:
            self._drain(loop)
            self.ready.set()

    def toml_text(self, cf, kf) -> str:
        """the configuration file of this start-up: what the harness needs ([server], rate limiting off, certificate_auth)
        plus the extra settings, each table written once"""
        tables: dict[str, list[str]] = {"server": [f"document_root = {_toml(self.docroot)}", 'host = "127.0.0.1"', "port = 1965"]}
        if cf:
            tables["server"] += [f"certfile = {_toml(cf)}", f"keyfile = {_toml(kf)}"]
        if self.rcc:
            tables["server"].append("require_client_cert = true")
        tables["rate_limit"] = ["enabled = false"]
        if self.auth is not None and not self.auth:
            tables["certificate_auth"] = ["paths = []"]
        for table, key, text in self.extra:
            tables.setdefault(table, []).append(f"{key} = {text}")
        lines: list[str] = []
        for t, body in tables.items():
            lines += [f"[{t}]", *body]
        for r in (self.auth or []):
            lines += ["[[certificate_auth.paths]]", f"prefix = {_toml(r['prefix'])}", f"require_cert = {_toml(r['require_cert'])}"]
            if r.get("fps") is not None:
                lines.append(f"allowed_fingerprints = {_toml(list(r['fps']))}")
        return "\n".join(lines) + "\n"

    def _write_toml(self, cf, kf) -> str:
        d = tempfile.mkdtemp(prefix="nv-")
        self._tmp.append(d)
        path = os.path.join(d, "config.toml")
        Path(path).write_text(self.toml_text(cf, kf))
        return path

    def _run_toml(self, cf, kf):
        """what `serve --config` does, without the command line: ServerConfig.from_toml, then start_server"""
        from nauyaca.server.config import ServerConfig
        from nauyaca.server.server import start_server

        loop = asyncio.new_event_loop()
        loop.set_exception_handler(lambda _l, _c: None)
        asyncio.set_event_loop(loop)
        try:
            cfg = ServerConfig.from_toml(Path(self._write_toml(cf, kf)))
            task = loop.create_task(start_server(cfg, enable_rate_limiting=cfg.enable_rate_limiting, rate_limit_config=cfg.get_rate_limit_config(),
                                                 access_control_config=cfg.get_access_control_config(), log_level="CRITICAL", log_file=Path(os.devnull),
                                                 certificate_auth_config=cfg.get_certificate_auth_config()))
            loop.run_until_complete(task)
        except asyncio.CancelledError:
            pass
        except BaseException as e:  # noqa: BLE001
            self._exc = e
        finally:
            self._drain(loop)
            self.ready.set()

    def _run_cli(self, cf, kf):
        from typer.testing import CliRunner

        import nauyaca.__main__ as M

        path = self._write_toml(cf, kf)
        try:
            res = CliRunner().invoke(M.app, ["serve", "--config", path, "--log-level", "CRITICAL", "--log-file", os.devnull])
            self._cli_out = (res.output or "")[-600:]
            if not self.ready.is_set():   # came back without ever creating a listener
                self._exc = res.exception if res.exception is not None and not isinstance(res.exception, SystemExit) else None
                if self._exc is None:
                    self.error = _errclass(None, self._cli_out)
        except BaseException as e:  # noqa: BLE001
            self._exc = e
        finally:
            self.ready.set()

    @staticmethod
    def _drain(loop):
        try:
            pending = [t for t in asyncio.all_tasks(loop) if not t.done()]
            for t in pending:
                t.cancel()
            if pending:
                loop.run_until_complete(asyncio.gather(*pending, return_exceptions=True))
            loop.run_until_complete(asyncio.sleep(0))
        except BaseException:  # noqa: BLE001
            pass
        loop.close()

    # -- start / stop ---------------------------------------------------------------------------------
    def __enter__(self):
        import asyncio.base_events as be

        cf = kf = None
        if self.cert != "auto":
            pems = server_cert(self.cert)
            if pems is None:
                self.error = "certificate-uncreatable"
                return self
            d = tempfile.mkdtemp(prefix="nv-")
            self._tmp.append(d)
            cf, kf = write_cert_files(d, pems, self.encoding)
        d2 = tempfile.mkdtemp(prefix="nv-")   # nauyaca's self-signed fallbacks drop their files into tempfile.tempdir
        self._tmp.append(d2)
        old_tmp, tempfile.tempdir = tempfile.tempdir, d2
        st = self
        orig = be.BaseEventLoop.create_server
        self._orig = orig

        async def create_server(loop_self, protocol_factory, host=None, port=None, *, ssl=None, sock=None, **kw):
            if threading.current_thread() is not st.thread:
                return await orig(loop_self, protocol_factory, host, port, ssl=ssl, sock=sock, **kw)
            s = socket.socket(socket.AF_INET, socket.SOCK_STREAM)
            s.setsockopt(socket.SOL_SOCKET, socket.SO_REUSEADDR, 1)
            s.bind(("127.0.0.1", 0))
            srv = await orig(loop_self, protocol_factory, sock=s, ssl=ssl, **kw)
            st.ssl_arg, st.kw, st.loop, st.factory = ssl, kw, loop_self, protocol_factory
            loop_self.set_exception_handler(lambda _l, _c: None)
            st.port = s.getsockname()[1]
            st.started = True
            st.ready.set()
            return srv

        be.BaseEventLoop.create_server = create_server
        self.thread = threading.Thread(target={"api": self._run_api, "cli": self._run_cli, "toml": self._run_toml}[self.entry], args=(cf, kf), daemon=True)
        old_out, old_err = sys.stdout, sys.stderr
        if self.entry != "cli":
            sys.stdout = io.StringIO()   # "[Server] WARNING: Using self-signed certificate" prints
        try:
            self.thread.start()
            ok = self.ready.wait(30)
        finally:
            if self.entry != "cli":
                sys.stdout, sys.stderr = old_out, old_err
            tempfile.tempdir = old_tmp
        if not ok:
            self.__exit__(None, None, None)
            raise RuntimeError("the server neither started nor failed within 30 s")
        if not self.started and self.error is None:
            self.error = _errclass(self._exc, self._cli_out)
        return self

    @property
    def backend(self) -> str:
        if not self.started:
            return "-"
        return "std" if self.ssl_arg is not None else "no-ssl-arg"

    def listener_context(self):
        """(kind, context object) of the running listener: the ssl= argument of create_server, or the PyOpenSSL context the
        protocol factory hands to TLSServerProtocol"""
        if self.ssl_arg is not None and self.ssl_arg != "unset":
            return "std", self.ssl_arg
        try:
            ctx = getattr(self.factory(), "ssl_context", None)
        except Exception:  # noqa: BLE001
            ctx = None
        return ("pyo", ctx) if ctx is not None else ("none", None)

    def lower_security_level(self) -> bool:
        """Take OpenSSL's security level (system configuration, not nauyaca's) out of the picture ON THE RUNNING LISTENER:
        afterwards the protocol-version range nauyaca gave the context is the only barrier against old versions."""
        from . import tls_paths

        kind, ctx = self.listener_context()
        if ctx is None:
            return False
        try:
            tls_paths.lower_security_level(kind, ctx)
            return True
        except Exception:  # noqa: BLE001
            return False

    def __exit__(self, *a):
        import asyncio.base_events as be

        import structlog

        if self.thread is not None and self.thread.is_alive() and self.loop is not None:
            loop = self.loop

            def stop():
                for t in asyncio.all_tasks(loop):
                    t.cancel()
            with contextlib.suppress(RuntimeError):
                loop.call_soon_threadsafe(stop)
        if self.thread is not None:
            self.thread.join(10)
        if getattr(self, "_orig", None) is not None:
            be.BaseEventLoop.create_server = self._orig
        for d in self._tmp:
            shutil.rmtree(d, ignore_errors=True)
        __import__('harness.core', fromlist=['core']).configure_harness_logging()      # put the harness logging configuration back
        return False



# ------------------------------------------------------------------------------------------------
# the settings a configuration file can carry, enumerated from the source
# ------------------------------------------------------------------------------------------------
def config_schema() -> list[dict]:
    """Every (table, key) the working tree's configuration loader reads from a TOML document, found in the syntax tree of
    nauyaca/server/config.py: `T = <doc>.get("table", {})` / `<doc>["table"]` names a table, `T.get("key"[, default])` /
    `T["key"]` a key of it.  Returns [{'table', 'key', 'default': literal | None, 'has_default': bool}] in source order."""
    import ast
    import inspect

    import nauyaca.server.config as C

    tree = ast.parse(inspect.getsource(C))
    tables: dict[str, str] = {}     # variable name -> table name

    def str_const(n):
        return n.value if isinstance(n, ast.Constant) and isinstance(n.value, str) else None

    def access(n):
        """(object expression, key, default node | None, has default) for `x.get("k"[, d])` and `x["k"]`"""
        if isinstance(n, ast.Call) and isinstance(n.func, ast.Attribute) and n.func.attr == "get" and n.args and str_const(n.args[0]) is not None:
            return n.func.value, str_const(n.args[0]), (n.args[1] if len(n.args) > 1 else None), len(n.args) > 1
        if isinstance(n, ast.Subscript) and str_const(n.slice) is not None:
            return n.value, str_const(n.slice), None, False
        return None

    for n in ast.walk(tree):
        if isinstance(n, (ast.Assign, ast.AnnAssign)) and n.value is not None:
            a = access(n.value)
            targets = n.targets if isinstance(n, ast.Assign) else [n.target]
            if a and (a[2] is None or isinstance(a[2], ast.Dict)) and len(targets) == 1 and isinstance(targets[0], ast.Name):
                if a[2] is not None or isinstance(n.value, ast.Subscript):
                    tables[targets[0].id] = a[1]
    out, seen = [], set()
    for n in ast.walk(tree):
        a = access(n)
        if not a:
            continue
        obj, key, dflt, has = a
        table = None
        if isinstance(obj, ast.Name) and obj.id in tables:
            table = tables[obj.id]
        else:   # chained: data.get("tls", {}).get("min_version")
            inner = access(obj)
            if inner and (inner[2] is None or isinstance(inner[2], ast.Dict)) and not (isinstance(inner[0], ast.Name) and inner[0].id in tables):
                table = inner[1]
        if table is None or (table, key) in seen:
            continue
        seen.add((table, key))
        try:
            default = ast.literal_eval(dflt) if dflt is not None else None
        except Exception:  # noqa: BLE001  (a named constant)
            default = None
        if not isinstance(default, (str, int, float, bool, list, type(None))):
            default = None
        out.append({"table": table, "key": key, "default": default, "has_default": has, "line": getattr(n, "lineno", 0)})
    out.sort(key=lambda e: e["line"])
    for e in out:
        e.pop("line")
    # ... and, whatever shape the loader's code has (a table of fields, helper functions, comprehensions): what it ASKS a document
    # for when it loads one - the loader is run on a document that records every table and key it is asked about
    have = {(e["table"], e["key"]) for e in out}
    for e in _observed_schema():
        if (e["table"], e["key"]) not in have:
            out.append(e)
            have.add((e["table"], e["key"]))
    return out


def _observed_schema() -> list[dict]:
    import nauyaca.server.config as C

    seen: list[dict] = []

    class Rec(dict):
        def __init__(self, table=None):
            super().__init__()
            self._table = table

        def _note(self, key, default, has):
            if self._table is not None and isinstance(key, str):
                d = default if isinstance(default, (str, int, float, bool, list, type(None))) else None
                seen.append({"table": self._table, "key": key, "default": d, "has_default": has})

        def get(self, key, default=None):
            if self._table is None and isinstance(key, str) and (default is None or isinstance(default, dict)):
                return Rec(key)          # a table of the document
            self._note(key, default, True)
            return default

        def __getitem__(self, key):
            if self._table is None and isinstance(key, str):
                return Rec(key)
            self._note(key, None, False)
            raise KeyError(key)

        def __contains__(self, key):
            if self._table is not None:
                self._note(key, None, False)
            return False

    mod = getattr(C, "tomllib", None)
    if mod is None or not hasattr(mod, "load"):
        return []
    fd, path = tempfile.mkstemp(prefix="nv-schema-", suffix=".toml")
    os.close(fd)
    real = mod.load

    class Shim:
        def __getattr__(self, name):
            return getattr(mod, name)

        @staticmethod
        def load(f, *a, **k):
            return Rec()

    try:
        C.tomllib = Shim()
        with contextlib.suppress(BaseException):
            C.ServerConfig.from_toml(Path(path))
    finally:
        C.tomllib = mod
        with contextlib.suppress(OSError):
            os.unlink(path)
    assert mod.load is real
    out, have = [], set()
    for e in seen:
        if (e["table"], e["key"]) not in have:
            have.add((e["table"], e["key"]))
            out.append(e)
    return out


def config_accepts(settings: list, docroot: str) -> bool:
    """does the working tree's loader take a configuration file with these extra settings ([table, key, TOML text])?"""
    from nauyaca.server.config import ServerConfig

    fd, path = tempfile.mkstemp(prefix="nv-accept-", suffix=".toml")
    try:
        with os.fdopen(fd, "w") as f:
            f.write(Started("toml", "auto", False, None, docroot, extra=settings).toml_text(None, None))
        ServerConfig.from_toml(Path(path))
        return True
    except BaseException:  # noqa: BLE001
        return False
    finally:
        with contextlib.suppress(OSError):
            os.unlink(path)


# ------------------------------------------------------------------------------------------------
# the command-line interface, enumerated from the source
# ------------------------------------------------------------------------------------------------
def cli_commands() -> list[dict]:
    """Every leaf command of `nauyaca.__main__.app`: {'path': ['tofu', 'trust'], 'params': [...]} with
    params {'name', 'kind': 'argument'|'option', 'opts': ['--port', '-p'], 'type': str, 'required', 'flag'}."""
    import typer.main

    import nauyaca.__main__ as M

    out = []

    def walk(cmd, path):
        if isinstance(getattr(cmd, "commands", None), dict):   # a group (typer vendors its own click: no isinstance test)
            for name in sorted(cmd.commands):
                walk(cmd.commands[name], path + [name])
            return
        ps = []
        for p in cmd.params:
            ps.append({"name": p.name, "kind": "argument" if getattr(p, "param_type_name", "") == "argument" else "option",
                       "opts": list(getattr(p, "opts", [])), "type": getattr(p.type, "name", str(p.type)),
                       "required": bool(p.required), "flag": bool(getattr(p, "is_flag", False))})
        out.append({"path": path, "params": ps})

    walk(typer.main.get_command(M.app), [])
    return out


def synth_argv(cmd: dict, port: int, tmpdir: str) -> list[str]:
    """An argument vector that points the command at localhost:<port>, built from the declared parameters only."""
    argv = list(cmd["path"])
    tail = []
    for p in cmd["params"]:
        n, t = p["name"].lower(), p["type"].lower()
        if "url" in n or "uri" in n:
            val = f"gemini://localhost:{port}/page"
        elif "host" in n or n in ("server", "address", "target", "capsule"):
            val = "localhost"
        elif "port" in n:
            val = str(port)
        elif t in ("path", "file", "filename", "directory"):
            f = os.path.join(tmpdir, "arg-" + n)
            if not os.path.exists(f):
                Path(f).write_text("x\n")
            val = f
        elif t in ("integer", "int"):
            val = "1"
        elif t == "float":
            val = "5"
        else:
            val = "x"
        if p["kind"] == "argument":
            if p["required"]:
                tail.append(val)
        elif "port" in n and not p["flag"]:
            long = [o for o in p["opts"] if o.startswith("--")] or p["opts"]
            argv += [long[0], val]
        elif p["required"] and not p["flag"]:
            long = [o for o in p["opts"] if o.startswith("--")] or p["opts"]
            argv += [long[0], val]
    return argv + tail


def run_cli_subprocess(argv: list[str], home: str, repo_src: str, timeout: float = 20.0, env_extra: dict | None = None) -> str:
    """`python -m nauyaca <argv>` in its own process with HOME=<home>; returns 'exit=<rc>' or 'timeout'."""
    env = dict(os.environ, HOME=home, PYTHONPATH=repo_src, NO_COLOR="1", **(env_extra or {}))
    try:
        p = subprocess.run([sys.executable, "-m", "nauyaca", *argv], cwd=home, env=env, stdin=subprocess.DEVNULL,
                           stdout=subprocess.PIPE, stderr=subprocess.STDOUT, timeout=timeout)
        return f"exit={p.returncode}"
    except subprocess.TimeoutExpired:
        return "timeout"


class CertPeer(tls_live.VersionPeer):
    """VersionPeer whose certificate can differ from step to step (`certs`: name -> (certfile, keyfile))."""

    def __init__(self, certs: dict[str, tuple[str, str]]):
        self.certs = certs
        first = next(iter(certs.values()))
        super().__init__(first[0], first[1])

    def set_step_cert(self, k: int, lo: int, hi: int, reset_first: bool, cert: str) -> None:
        self.certfile, self.keyfile = self.certs[cert]
        self.set_step(k, lo, hi, reset_first)

    def close(self) -> None:
        self.stop = True
        with contextlib.suppress(OSError):   # wake the accept loop instead of waiting for its poll interval
            socket.create_connection(("127.0.0.1", self.port), timeout=0.5).close()
        self.thread.join(3)
        with contextlib.suppress(OSError):
            self.sock.close()
