import NauyacaVerif.Fs.Static
import NauyacaVerif.Fs.StaticFx
import NauyacaVerif.Fs.TreeOS
import NauyacaVerif.Fs.CanonProof
import NauyacaVerif.Fs.GenStatic
import NauyacaVerif.Fs.TreeNoLink
import NauyacaVerif.Gen.Params

/-! # C02  Static serving never escapes the document root

Model: `Fs.handle` mirrors `StaticFileHandler.handle` over an abstract operating system
`Fs.OS` (`resolve`, `kind`, `size`, `readText`, `listing` are arbitrary functions: every theorem
holds for every behaviour of the file system, symlinks of any shape included);
`Fs.Canon.canonSegs` mirrors `canonical_path` on code points.  `serveUrl` is the composition the
server performs on the path component of a request.  File contents are identified by the id the
OS returns from `readText`; a directory listing by the directory and the names the OS lists. -/

namespace NauyacaVerif.C02
open Fs Fs.Canon

/-- the static handler on the path component of a request URL -/
def serveUrl (os : OS) (cfg : SCfg) (raw : Cps) : SResp :=
  handle os cfg ((Canon.canonSegs raw).1.map toName) (Canon.canonSegs raw).2

/-- **containment**: a success response carries the content of a file, or the listing of a
    directory, whose location is a value returned by `resolve` (fully resolved, by the OS
    contract) and lies component-wise inside the document root — for every OS, configuration,
    segment list and trailing-slash flag; index files included -/
theorem static_contained (os : OS) (cfg : SCfg) (comps : List Name) (trailing : Bool) :
    (∀ p id, handle os cfg comps trailing = .file p id →
      cfg.root <+: p ∧ Resolved os p ∧ os.readText p = .ok id) ∧
    (∀ p names, handle os cfg comps trailing = .listing p names →
      cfg.root <+: p ∧ Resolved os p ∧ os.listing p = some names) := by
  have h := Fs.static_contained os cfg comps trailing
  constructor
  · intro p id hp
    obtain ⟨h1, h2, h3⟩ := h.1 p id hp
    exact ⟨by simpa [inside, List.isPrefixOf_iff_prefix] using h1, h2, h3⟩
  · intro p names hp
    obtain ⟨h1, h2, h3⟩ := h.2 p names hp
    exact ⟨by simpa [inside, List.isPrefixOf_iff_prefix] using h1, h2, h3⟩

/-- the same for every spelling of the request path (dot segments, escapes, NUL, anything) -/
theorem static_contained_url (os : OS) (cfg : SCfg) (raw : Cps) :
    (∀ p id, serveUrl os cfg raw = .file p id → cfg.root <+: p ∧ Resolved os p ∧ os.readText p = .ok id) ∧
    (∀ p names, serveUrl os cfg raw = .listing p names → cfg.root <+: p ∧ Resolved os p ∧ os.listing p = some names) :=
  static_contained os cfg _ _

/-- an index file is served only after its own resolution was checked against the root -/
theorem index_rechecked (os : OS) (cfg : SCfg) (dir : Path) (ns : List Name) (ip : Path)
    (h : findIndex os cfg dir ns = some ip) : cfg.root <+: ip ∧ Resolved os ip := by
  obtain ⟨h1, h2⟩ := findIndex_inside os cfg dir ns ip h
  exact ⟨by simpa [inside, List.isPrefixOf_iff_prefix] using h1, h2⟩

/-- **no leak**: a non-success response has no body and its meta is one of the extracted fixed
    strings, or an extracted prefix followed by the exception text (`exc`, the operating system's
    error message) -/
theorem static_no_leak (os : OS) (cfg : SCfg) (comps : List Name) (trailing : Bool) (exc : List Nat)
    (h : (handle os cfg comps trailing).success = false) :
    (handle os cfg comps trailing).body = none ∧
    ((handle os cfg comps trailing).errMeta exc ∈ Gen.staticMetas ∨
     ∃ pre ∈ Gen.staticMetaPrefixes, (handle os cfg comps trailing).errMeta exc = pre ++ exc) := by
  refine ⟨nonsuccess_no_body _ h, ?_⟩
  rcases nonsuccess_meta _ exc h with hm | hm | hm
  · left
    have hsub : ∀ m ∈ [metaNotFound, metaTooLarge, metaNotUtf8, metaDenied], m ∈ Gen.staticMetas := by decide
    exact hsub _ hm
  · right; exact ⟨metaServerError, by decide, hm⟩
  · right; exact ⟨metaListingError, by decide, hm⟩

/-- **reads**: the handler reads the content of at most one file; when it does, either that
    content is the response (success) or the read itself failed — on a branch that ends
    non-success no file content was obtained.  (`handleFx` is `handle` with its reads listed.) -/
theorem static_reads (os : OS) (cfg : SCfg) (comps : List Name) (trailing : Bool) :
    (handleFx os cfg comps trailing).1 = handle os cfg comps trailing ∧
    ((handleFx os cfg comps trailing).2 = [] ∨
     ∃ p, (handleFx os cfg comps trailing).2 = [p] ∧
       ((∃ id, handle os cfg comps trailing = .file p id ∧ os.readText p = .ok id) ∨
        ((∀ id, os.readText p ≠ .ok id) ∧ ∃ why, handle os cfg comps trailing = .tempFail why))) := by
  refine ⟨handleFx_fst os cfg comps trailing, ?_⟩
  rcases handleFx_reads os cfg comps trailing with ⟨h, _⟩ | ⟨p, hp, hc⟩
  · exact Or.inl h
  · right
    refine ⟨p, hp, ?_⟩
    rw [handleFx_fst] at hc
    exact hc

/-- the real `handle` contains exactly one content-reading call, in its last statement
    (source-shape fact extracted on every run) -/
theorem single_read_tie : Gen.staticSingleRead = true := by decide

/-- the model's fixed metas are the strings found in the source -/
theorem metas_tie :
    (∀ m ∈ [metaNotFound, metaTooLarge, metaNotUtf8, metaDenied], m ∈ Gen.staticMetas) ∧
    (∀ m ∈ Gen.staticMetas, m ∈ [metaNotFound, metaTooLarge, metaNotUtf8, metaDenied]) ∧
    Gen.staticMetaPrefixes = [metaListingError, metaServerError] ∧
    Gen.staticIndices = [ofName "index.gmi", ofName "index.gemini"] := by
  refine ⟨by decide, by decide, by decide, by decide⟩

/-- **completeness over the OS**: a regular file whose path resolves to itself (no symlink on the
    way), within the size limit and UTF-8, is served when its segments are requested -/
theorem static_complete_os (os : OS) (cfg : SCfg) (segs : List Name) (id : Nat)
    (hres : os.resolve (cfg.root ++ segs) = some (cfg.root ++ segs))
    (hk : os.kind (cfg.root ++ segs) = .file) (hsz : os.size (cfg.root ++ segs) ≤ cfg.maxSize)
    (hrd : os.readText (cfg.root ++ segs) = .ok id) :
    handle os cfg segs false = .file (cfg.root ++ segs) id :=
  complete_os os cfg segs id hres hk hsz hrd

/-- percent-decoding undoes percent-encoding, for every byte string and every choice of bytes
    left literal that does not include `%` -/
theorem pctDecode_pctEncode (keep : Nat → Bool) (hk : keep 37 = false) (bs : List Nat)
    (hb : ∀ b ∈ bs, b < 256) : pctDecode (pctEncode keep bs) = bs :=
  Canon.pctDecode_pctEncode keep hk bs hb

/-- UTF-8 decoding (with `errors="replace"`) undoes UTF-8 encoding on Unicode scalar values -/
theorem utf8Dec_utf8Enc (s : List Nat) (hs : ∀ c ∈ s, scalar c = true) : utf8Dec (utf8Enc s) = s :=
  Canon.utf8Dec_enc s hs

/-- every segment `canonical_path` produces is a proper name: non-empty, not `.` or `..`,
    without `/` — whatever the request contained -/
theorem canon_segments_clean (raw : Cps) : ∀ s ∈ (Canon.canonSegs raw).1, Clean s :=
  canonSegs_clean raw

/-- **completeness**: every regular file inside the root whose path `root/n₁/…/nₖ` resolves to
    itself is served — with its own content — when requested by its literal path (names free of
    `%`) and by every RFC 3986 percent-encoded spelling of its path (names of Unicode scalar
    values; any set of ASCII bytes other than `%` may stay literal: `unreserved` is one) -/
theorem static_complete (os : OS) (cfg : SCfg) (names : List Cps) (id : Nat)
    (hclean : ∀ s ∈ names, Clean s)
    (hres : os.resolve (cfg.root ++ names.map toName) = some (cfg.root ++ names.map toName))
    (hk : os.kind (cfg.root ++ names.map toName) = .file)
    (hsz : os.size (cfg.root ++ names.map toName) ≤ cfg.maxSize)
    (hrd : os.readText (cfg.root ++ names.map toName) = .ok id) :
    ((∀ s ∈ names, 37 ∉ s) →
      serveUrl os cfg (47 :: joinSlash names) = .file (cfg.root ++ names.map toName) id) ∧
    (∀ keep : Nat → Bool, keep 37 = false → (∀ b, keep b = true → b < 128) →
      (∀ s ∈ names, ∀ c ∈ s, scalar c = true) →
      serveUrl os cfg (47 :: joinSlash (names.map (encName keep))) = .file (cfg.root ++ names.map toName) id) := by
  constructor
  · intro hp
    unfold serveUrl
    rw [canonSegs_literal names hclean hp]
    exact complete_os os cfg _ id hres hk hsz hrd
  · intro keep hk37 hka hs
    unfold serveUrl
    rw [canonSegs_encoded keep hk37 hka names hclean hs]
    exact complete_os os cfg _ id hres hk hsz hrd

/-- the same on the executable symlink tree the driver runs (the OS hypotheses discharged from
    the tree): if every proper prefix of `root/n₁/…/nₖ` is a directory of the tree, no component is
    a symlink, the names are ordinary and the node is a regular UTF-8 file within the size limit,
    both spellings serve it.  (`< 200` components: the fuel of the realpath port.) -/
theorem static_complete_tree (t : Tree) (metas : List FileMeta) (cfg : SCfg) (names : List Cps) (id : Nat)
    (hclean : ∀ s ∈ names, Clean s)
    (hlen : (cfg.root ++ names.map toName).length < 200)
    (ho : ∀ n ∈ cfg.root ++ names.map toName, Ordinary n)
    (hnul : ∀ n ∈ cfg.root ++ names.map toName, nameHasNul n = false)
    (hp : Plain t [] (cfg.root ++ names.map toName) (.file id))
    (hu : (metaOf metas id).utf8 = true) (hsz : (metaOf metas id).size ≤ cfg.maxSize) :
    ((∀ s ∈ names, 37 ∉ s) →
      serveUrl (treeOS t metas) cfg (47 :: joinSlash names) = .file (cfg.root ++ names.map toName) id) ∧
    (∀ keep : Nat → Bool, keep 37 = false → (∀ b, keep b = true → b < 128) →
      (∀ s ∈ names, ∀ c ∈ s, scalar c = true) →
      serveUrl (treeOS t metas) cfg (47 :: joinSlash (names.map (encName keep))) =
        .file (cfg.root ++ names.map toName) id) := by
  obtain ⟨h1, h2, h3, h4⟩ := treeOS_plain t metas _ id hlen ho hnul hp
  exact static_complete (treeOS t metas) cfg names id hclean h1 h2 (by rw [h3]; exact hsz) (h4 hu)

/-- RFC 3986 `unreserved` is an admissible choice of literal bytes -/
theorem unreserved_ok : unreserved 37 = false ∧ ∀ b, unreserved b = true → b < 128 := by
  refine ⟨by decide, ?_⟩
  intro b hb
  simp only [unreserved, decide_eq_true_eq] at hb
  omega

/-! ## non-vacuity

`demoOS`: a tree without links (the executable tree model reduces under `decide`).
`linkOS`: an OS given directly by its resolution function — `root/sub/index.gmi` and
`root/evil` are symlinks leaving the root, `root/in` is a symlink to `root/a b.gmi`. -/
def demoTree : Tree :=
  [(["root"], .dir), (["out"], .dir), (["out", "secret"], .file 1),
   (["root", "sub"], .dir), (["root", "a b.gmi"], .file 2), (["root", "sub", "x"], .file 3)]
def demoOS : OS := treeOS demoTree []
def demoCfg : SCfg := { root := ["root"], indices := ["index.gmi", "index.gemini"], listingOn := true, maxSize := 100 }

-- "/a%20b.gmi" and "/a b.gmi" both serve file 2; "/a b.gmi/" names a directory, never the file
example : serveUrl demoOS demoCfg [47, 97, 37, 50, 48, 98, 46, 103, 109, 105] = .file ["root", "a b.gmi"] 2 := by decide
example : serveUrl demoOS demoCfg [47, 97, 32, 98, 46, 103, 109, 105] = .file ["root", "a b.gmi"] 2 := by decide
example : serveUrl demoOS demoCfg [47, 97, 32, 98, 46, 103, 109, 105, 47] = .notFound := by decide
-- "/../out/secret" and "/%2e%2e/out/secret" stay inside the root (and find nothing there)
example : serveUrl demoOS demoCfg [47, 46, 46, 47, 111, 117, 116, 47, 115, 101, 99, 114, 101, 116] = .notFound := by decide
example : serveUrl demoOS demoCfg [47, 37, 50, 101, 37, 50, 101, 47, 111, 117, 116, 47, 115, 101, 99, 114, 101, 116] = .notFound := by decide
-- "/sub" lists the directory
example : serveUrl demoOS demoCfg [47, 115, 117, 98] = .listing ["root", "sub"] ["x"] := by decide
-- the hypotheses of `static_complete` are satisfiable
example : demoOS.resolve (demoCfg.root ++ [toName [97, 32, 98, 46, 103, 109, 105]]) =
    some (demoCfg.root ++ [toName [97, 32, 98, 46, 103, 109, 105]]) := by decide

def linkOS : OS where
  resolve := fun p =>
    if p = ["root", "sub", "index.gmi"] then some ["out", "secret"]
    else if p = ["root", "evil", "secret"] then some ["out", "secret"]
    else if p = ["root", "in"] then some ["root", "a b.gmi"]
    else some p
  kind := fun p =>
    if p = ["root"] ∨ p = ["root", "sub"] ∨ p = ["out"] then .dir
    else if p = ["out", "secret"] ∨ p = ["root", "sub", "index.gmi"] ∨ p = ["root", "a b.gmi"] ∨ p = ["root", "in"] then .file
    else .missing
  size := fun _ => 10
  readText := fun p =>
    if p = ["out", "secret"] ∨ p = ["root", "sub", "index.gmi"] then .ok 1
    else if p = ["root", "a b.gmi"] ∨ p = ["root", "in"] then .ok 2 else .ioError
  listing := fun _ => some []

-- the index of "/sub/" is a symlink to the outside secret: not served (listing instead); with
-- listings off: 51
example : handle linkOS demoCfg ["sub"] true = .listing ["root", "sub"] [] := by decide
example : handle linkOS { demoCfg with listingOn := false } ["sub"] true = .notFound := by decide
example : handle linkOS demoCfg ["evil", "secret"] false = .notFound := by decide
-- a symlink that stays inside is followed, and the response names the resolved location
example : handle linkOS demoCfg ["in"] false = .file ["root", "a b.gmi"] 2 := by decide
example : (handleFx linkOS demoCfg ["in"] false).2 = [["root", "a b.gmi"]] := by decide
example : (handleFx linkOS demoCfg ["evil", "secret"] false).2 = [] := by decide
example : Plain demoTree [] ["root", "a b.gmi"] (.file 2) := by
  refine ⟨by decide, by decide, ⟨.dir, by decide, by intro _ h; cases h⟩, by decide, by decide, ⟨.file 2, by decide, by intro _ h; cases h⟩, ?_⟩
  show demoTree.lstat ["root", "a b.gmi"] = some (.file 2)
  decide
example : pctDecode (pctEncode unreserved [97, 32, 98, 37, 255]) = [97, 32, 98, 37, 255] := by decide
example : encName unreserved [97, 32, 233] = [97, 37, 50, 48, 37, 67, 51, 37, 65, 57] := by decide
end NauyacaVerif.C02
